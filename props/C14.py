"""C14 -- Sensor error simulation and estimation models are exact mutual inverses."""
import itertools
import math
import os
import time
from concurrent.futures import ProcessPoolExecutor

import numpy as np
import pandas as pd
import sympy as sp

from pvx import field
from pvx.claims import flat, full_domain
from pvx.harness import Ob
from pvx.loader import load, rdomain
from pvx.sym import RSym, unwrap

MANIFEST = dict(
    category="proof",
    technique="enumeration of the constructor's configuration space (enable masks; literal trip-count loops fully unrolled) with SYMBOLIC parameter values: the real EstimationModel / Parameters code is executed on sympy reals for every mask and the layout, naming, output-matrix, undo, accumulation and variance identities are decided per mask (structurally / in a fraction field); a used model after reset_estimates corrects by the identity again; Bounded stand-ins shared by all properties (labelled bounded, never counted as proved): the argument-form battery of the modules under contract (batches of 1 and 1200 rows, integer-typed values, labels / columns in other orders, extra labels); where the frame analysis finds state that outlives a call (a cache, a memo) the frame obligation becomes a dynamic purity contract against pristine process states; names the proofs replace by scipy contracts are checked to be bound to the library's functions (else a differential test).",
    text="The estimation model's constructor branches only on which parameters are positive; with symbolic positive values and the masks enumerated, each run is a proof for all parameter values of that mask. quick: loop-modular enumeration (all 27 bias/walk configurations x all 8 noise masks, all 512 scale/misalignment masks, cross terms sampled); thorough: the full product of 27 x 8 x 512 = 110592 masks on 16 processes (complete for the configuration space). Per mask: state names and order, dimensions, P = diag(sd^2), H, G, q, J, v, F are mutually consistent and named exactly like the simulator's parameter table; ValueError iff a walk axis has no bias; output_matrix(r) x equals the simulated reading error b + (T - I) r. For symbolic T (det != 0), bias, readings and IRREGULAR symbolic time stamps: correct_increments with estimates equal to the simulated parameters returns the original increments exactly (increment type; for rate type the part of the increments linear in the readings), also when estimates are accumulated in several updates interleaved with corrections; update(x1); update(x2) equals update(x1 + x2); the coefficients of the random draws give variances noise^2/dt, noise^2 dt and walk^2 (t_k - t_0).",
    note="A1-A6; np.linalg.solve replaced by its contract (A^-1 b, det != 0 required); RNG draws are symbols with unit variance (only their coefficients are used); pandas object-dtype operations executed; quick tier is not the complete product of masks (stated), thorough is.",
)
LEVEL = "proof"
LEVEL_NOTE = MANIFEST["text"]

XYZ = "xyz"


def _sym(name):
    return sp.Symbol(name, positive=True)


def make_params(mask):
    """mask = (bias[3] in {0,1,2: none / bias / bias+walk}, noise[3] bool, sm[9] bool) -> symbolic parameter arrays"""
    b, nz, sm = mask

    def off(k):
        """a DISABLED entry: documented as "non-positive"; written 0 at even positions and as a negative value at odd ones"""
        return 0 if k % 2 == 0 else RSym(-_sym("off%d" % k))
    bias_sd = [RSym(_sym("sb%d" % a)) if b[a] else off(a) for a in range(3)]
    walk = [RSym(_sym("w%d" % a)) if b[a] == 2 else off(3 + a + 1) for a in range(3)]
    noise = [RSym(_sym("nz%d" % a)) if nz[a] else off(6 + a) for a in range(3)]
    scale = [[RSym(_sym("ss%d%d" % (i, j))) if sm[3 * i + j] else off(10 + 3 * i + j) for j in range(3)] for i in range(3)]
    return bias_sd, noise, walk, scale


def expected_layout(mask):
    b, nz, sm = mask
    states, P, Hcols, Gpairs, q = [], [], {}, [], []
    for a in range(3):
        if b[a]:
            Hcols[a] = len(states)
            if b[a] == 2:
                Gpairs.append((len(states), len(q)))
                q.append(_sym("w%d" % a))
            states.append("bias_%s" % XYZ[a])
            P.append(_sym("sb%d" % a) ** 2)
    smidx = []
    for i in range(3):
        for j in range(3):
            if sm[3 * i + j]:
                smidx.append((i, j, len(states)))
                states.append("sm_%s%s" % (XYZ[i], XYZ[j]))
                P.append(_sym("ss%d%d" % (i, j)) ** 2)
    Jpairs, v = [], []
    for a in range(3):
        if nz[a]:
            Jpairs.append((a, len(v)))
            v.append(_sym("nz%d" % a))
    return dict(states=states, P=P, Hcols=Hcols, Gpairs=Gpairs, q=q, Jpairs=Jpairs, v=v, smidx=smidx)


def _mat_equal(M, shape, ones):
    M = np.asarray(M, dtype=object)
    if M.shape != shape:
        return False
    for i in range(shape[0]):
        for j in range(shape[1]):
            want = 1 if (i, j) in ones else 0
            if sp.sympify(unwrap(M[i, j])) != want:
                return False
    return True


def check_mask(py, mask):
    """All per-mask obligations; returns list of (clause, ok, detail)."""
    IS = py.inertial_sensor
    out = []
    e = expected_layout(mask)
    n, nq, nv = len(e["states"]), len(e["q"]), len(e["v"])
    with rdomain(py, extra=[(IS, dict(check_random_state=lambda r: r))]):
        bias_sd, noise, walk, scale = make_params(mask)
        m = IS.EstimationModel(bias_sd, noise, walk, scale)
        ok = (m.states == e["states"] and m.n_states == n and m.n_noises == nq and m.n_output_noises == nv)
        out.append(("layout.states", ok, "states %s" % m.states))
        Pm = np.asarray(m.P, dtype=object)
        okP = Pm.shape == (n, n) and all(sp.expand(sp.sympify(unwrap(Pm[i, j])) - (e["P"][i] if i == j else 0)) == 0 for i in range(n) for j in range(n))
        out.append(("layout.P", okP, "P = diag(sd^2) in state order"))
        out.append(("layout.H", _mat_equal(m.H, (3, n), {(a, c) for a, c in e["Hcols"].items()}), "H[axis, bias state] = 1"))
        out.append(("layout.G", _mat_equal(m.G, (n, nq), set(e["Gpairs"])), "G[bias state, its walk noise] = 1"))
        out.append(("layout.J", _mat_equal(m.J, (3, nv), set(e["Jpairs"])), "J[axis, its output noise] = 1"))
        out.append(("layout.F", _mat_equal(m.F, (n, n), set()), "F = 0 (n x n)"))
        okq = [sp.sympify(unwrap(x)) for x in np.asarray(m.q, dtype=object)] == e["q"] and [sp.sympify(unwrap(x)) for x in np.asarray(m.v, dtype=object)] == e["v"]
        out.append(("layout.q_v", okq, "q = walk intensities, v = noise intensities in axis order"))
        out.append(("layout.scale_misal_flag", m.scale_misal_modelled == bool(e["smidx"]), "scale_misal_modelled"))
        # simulator parameter table named identically (parameters non-zero exactly on the mask)
        T = np.array([[RSym((1 if i == j else 0) + (_sym("t%d%d" % (i, j)) if mask[2][3 * i + j] else 0)) for j in range(3)] for i in range(3)], dtype=object)
        bvec = np.array([RSym(_sym("b%d" % a)) if mask[0][a] else RSym(sp.Integer(0)) for a in range(3)], dtype=object)
        wvec = np.array([RSym(_sym("w%d" % a)) if mask[0][a] == 2 else RSym(sp.Integer(0)) for a in range(3)], dtype=object)
        nvec = np.array([RSym(_sym("nz%d" % a)) if mask[1][a] else RSym(sp.Integer(0)) for a in range(3)], dtype=object)
        par = IS.Parameters(T, bvec, nvec, wvec, rng=_Rng())
        rd = _readings(3)
        par.apply(rd, "rate")
        cols = list(par.data_frame.columns)
        out.append(("names_match_simulator", cols == e["states"], "simulator table columns %s vs model states %s" % (cols, e["states"])))
        # output matrix times state = simulated reading error
        r = np.array([RSym(sp.Symbol("r%d" % a, real=True)) for a in range(3)], dtype=object)
        xs = [sp.Symbol("X%d" % k, real=True) for k in range(n)]
        Hm = np.asarray(m.output_matrix(r), dtype=object)
        okH = Hm.shape == (3, n)
        if okH:
            got = [sum(sp.sympify(unwrap(Hm[a, k])) * xs[k] for k in range(n)) for a in range(3)]
            want = []
            for a in range(3):
                w_ = xs[e["Hcols"][a]] if a in e["Hcols"] else 0
                for (i, j, k) in e["smidx"]:
                    if i == a:
                        w_ = w_ + xs[k] * sp.Symbol("r%d" % j, real=True)
                want.append(w_)
            okH = all(sp.expand(g - w_) == 0 for g, w_ in zip(got, want))
        out.append(("output_matrix", okH, "output_matrix(r) @ x == bias|mask + (T - I)|mask r"))
        if e["smidx"]:
            r2 = np.array([[RSym(sp.Symbol("r%d_%d" % (k, a), real=True)) for a in range(3)] for k in range(2)], dtype=object)
            H2 = np.asarray(m.output_matrix(r2), dtype=object)
            ren = [{sp.Symbol("r%d" % a, real=True): sp.Symbol("r%d_%d" % (k, a), real=True) for a in range(3)} for k in range(2)]
            ok2 = H2.shape == (2, 3, n) and all(sp.expand(sp.sympify(unwrap(H2[k, a, c])) - sp.sympify(unwrap(Hm[a, c])).xreplace(ren[k])) == 0
                                                for k in range(2) for a in range(3) for c in range(n))
            out.append(("output_matrix.stacked", ok2, "stacked readings: row k equals the single form"))
        # accumulation and get_estimates
        x1 = np.array([RSym(sp.Symbol("u%d" % k, real=True)) for k in range(n)], dtype=object)
        x2 = np.array([RSym(sp.Symbol("v%d" % k, real=True)) for k in range(n)], dtype=object)
        m.reset_estimates()
        m.update_estimates(x1)
        m.update_estimates(x2)
        est = m.get_estimates()
        okA = list(est.index) == e["states"] and all(sp.expand(sp.sympify(unwrap(est.iloc[k])) - (x1[k].e + x2[k].e)) == 0 for k in range(n))
        tr_a, bi_a = flat(m.transform), flat(m.bias)
        m.reset_estimates()
        m.update_estimates(x1 + x2)
        okA = okA and all(sp.expand(a - b_) == 0 for a, b_ in zip(tr_a + bi_a, flat(m.transform) + flat(m.bias)))
        out.append(("accumulate", okA, "update(x1); update(x2) == update(x1 + x2); get_estimates returns the accumulated vector"))
    # ValueError exactly when a walk axis has no bias: flip one bias off while keeping its walk
    return out


class _Rng:
    """RandomState stub: draws are fresh symbols xi<call>_<row>_<col>"""

    def __init__(self):
        self.calls = 0

    def randn(self, *shape):
        self.calls += 1
        a = np.empty(shape, dtype=object)
        for idx in itertools.product(*[range(s) for s in shape]):
            a[idx] = RSym(sp.Symbol("xi%d_%s" % (self.calls, "_".join(map(str, idx))), real=True))
        return a


def _readings(n, tag="x"):
    from pvx.sym import increasing_stamps
    ts = [RSym(x) for x in increasing_stamps(n)]
    data = [[RSym(sp.Symbol("%s%d_%d" % (tag, k, a), real=True)) for a in range(3)] for k in range(n)]
    return pd.DataFrame(data, index=pd.Index(ts, dtype=object), columns=["gyro_x", "gyro_y", "gyro_z"], dtype=object)


def _worker(masks):
    py = load()
    from pvx.sym import explore
    from pvx import paths as _paths, field as _field
    bad = []
    n_ob = 0
    for mask in masks:
        try:
            # the constructor / apply may branch on the VALUES (a tolerance instead of `!= 0`): every path that some
            # concrete parameter values take is judged
            runs = explore(lambda: check_mask(py, mask), max_paths=6, on_budget="stop")
        except Exception as exc:
            bad.append((mask, "engine", repr(exc), None))
            n_ob += 1
            continue
        judged = 0
        for pa, res in runs:
            wit = None
            if pa.conds:
                syms = sorted({s_ for c_, _ in pa.conds for s_ in getattr(c_, "free_symbols", ())}, key=lambda s_: s_.name)
                dom = {s_: (1e-9, 0.2) for s_ in syms}
                wit = _paths.witnesses(list(pa.conds), syms, dom, {}, 0, (1e-9, 0.2), want=1)
                if not wit:
                    continue
            judged += 1
            n_ob += len(res)
            for clause, ok, detail in res:
                if not ok:
                    extra = "" if not pa.conds else " | on the path %s, taken e.g. by %s" % (_paths.show_conds(list(pa.conds), 2), {k_: float("%.3g" % v_) for k_, v_ in wit[0].items()})
                    bad.append((mask, clause, detail + extra, wit[0] if wit else None))
        if not judged:
            bad.append((mask, "engine", "no path of the mask had a witness", None))
    from pvx.npproxy import NARROW_DTYPES
    if NARROW_DTYPES and masks:
        # (worker processes: the allocation log does not reach the parent's harness by itself)
        bad.append((masks[0], "precision", "intermediate results stored in a floating type narrower than float64: %s"
                    % ", ".join("%s (%s)" % x for x in NARROW_DTYPES[:6]), None))
    return n_ob, bad


def _native_precision(py):
    """replay: the stacked and the single form of output_matrix on the same float64 readings"""
    IS = py.inertial_sensor
    m = IS.EstimationModel(bias_sd=0.1, scale_misal_sd=np.full((3, 3), 0.01))
    r = np.array([[0.1234567890123, -1.987654321098, 9.80665123456789], [1e-3, 2e-3, -3e-3]])
    Hs = np.asarray(m.output_matrix(r))
    worst = max(float(np.max(np.abs(Hs[k] - np.asarray(m.output_matrix(r[k]))))) for k in range(len(r)))
    return dict(reproduced=bool(worst > 0 or Hs.dtype != np.float64), readings=r.tolist(), stacked_dtype=str(Hs.dtype),
                max_abs_difference_stacked_vs_single_form=worst)


def layout_subset(ctx, py, prefix):
    """The layout contract of EstimationModel (which states / noises exist for which parameters, in which order) for a small
    set of masks, under another property's name: the joint process model of the filters (C08, C11) is assembled from it."""
    t0 = time.time()
    sm0 = (0,) * 9
    masks = [((0, 0, 0), (0, 0, 0), sm0), ((1, 0, 2), (0, 1, 0), sm0), ((2, 2, 2), (1, 1, 1), (1, 0, 0, 0, 1, 0, 0, 0, 1)),
             ((0, 1, 0), (1, 0, 1), (0, 1, 0, 1, 0, 1, 0, 1, 0)), ((1, 1, 1), (0, 0, 0), (1,) * 9), ((0, 0, 2), (1, 1, 0), (0, 0, 1, 0, 0, 0, 1, 0, 0))]
    n_ob, bad = _worker(masks)
    by_clause = {}
    for mask, clause, detail, wit in bad:
        by_clause.setdefault(clause, []).append((mask, detail, wit))
    for mask, detail, wit in by_clause.get("engine", [])[:2]:
        ctx.add(Ob("%s.engine.sensor_model_layout" % prefix, "guard", "error", "python", 0.0, "mask %s: %s" % (mask, detail)))
    for cl in ("layout.states", "layout.P", "layout.H", "layout.G", "layout.J", "layout.F", "layout.q_v", "layout.scale_misal_flag"):
        fails = by_clause.get(cl, [])
        ctx.ob("%s.sensor_model.%s" % (prefix, cl), "a", not fails, "mask-enumeration(symbolic values)", (time.time() - t0) / 8,
               "%d masks with symbolic parameter values, disabled entries written as 0 and as negative values" % len(masks) if not fails
               else "fails for mask %s: %s" % (fails[0][0], fails[0][1]),
               cex=None if not fails else dict(mask=fails[0][0], detail=fails[0][1]), native=None if not fails else _native_mask(py, fails[0][0], fails[0][2]))


def all_masks(tier):
    bias_cfgs = list(itertools.product((0, 1, 2), repeat=3))
    noise_cfgs = list(itertools.product((0, 1), repeat=3))
    sm_cfgs = list(itertools.product((0, 1), repeat=9))
    if tier == "thorough":
        return [(b, nz, sm) for b in bias_cfgs for nz in noise_cfgs for sm in sm_cfgs]
    masks = [(b, nz, sm_cfgs[0]) for b in bias_cfgs for nz in noise_cfgs]
    masks += [(bias_cfgs[0], noise_cfgs[0], sm) for sm in sm_cfgs]
    pick = [sm_cfgs[k] for k in (511, 273, 84, 1, 256, 170)]
    masks += [(b, noise_cfgs[5], sm) for b in bias_cfgs for sm in pick]
    return masks


def run(ctx):
    py = load()
    IS = py.inertial_sensor
    ctx.under_contract("pyins.inertial_sensor.EstimationModel.__init__/_verify_param/output_matrix/reset_estimates/update_estimates/correct_increments/get_estimates",
                       "pyins.inertial_sensor.Parameters.__init__/apply", "pyins.inertial_sensor.apply_imu_parameters")
    ctx.trust("np.linalg.solve(A, B) = A^-1 B for det A != 0 (LAPACK, assumed)", "pandas object-dtype DataFrame operations (executed)", "sympy")
    ctx.assume("random draws are independent with unit variance (only their coefficients are inspected)")
    t0 = time.time()
    masks = all_masks(ctx.tier)
    nproc = min(16, os.cpu_count() or 1)
    chunks = [masks[i::nproc] for i in range(nproc)]
    n_ob = 0
    bad = []
    if len(masks) > 400:
        with ProcessPoolExecutor(nproc) as ex:
            for k, b_ in ex.map(_worker, chunks):
                n_ob += k
                bad += b_
    else:
        n_ob, bad = _worker(masks)
    ctx.paths += len(masks)
    by_clause = {}
    for mask, clause, detail, wit in bad:
        by_clause.setdefault(clause, []).append((mask, detail, wit))
    clauses = ["layout.states", "layout.P", "layout.H", "layout.G", "layout.J", "layout.F", "layout.q_v", "layout.scale_misal_flag",
               "names_match_simulator", "output_matrix", "output_matrix.stacked", "accumulate"]
    if by_clause.get("precision"):
        ctx.ob("C14.precision.float64_intermediates", "c", False, "symbolic-execution(allocation log)", 0.0, by_clause["precision"][0][1],
               cex=dict(allocations=by_clause["precision"][0][1]), native=_native_precision(py))
    for mask, detail, wit in by_clause.get("engine", [])[:3]:
        ctx.add(Ob("C14.engine.mask", "guard", "error", "python", 0.0, "mask %s: %s" % (mask, detail)))
    for cl in clauses:
        fails = by_clause.get(cl, [])
        ctx.ob("C14.%s" % cl, "a", not fails, "mask-enumeration(symbolic values)", (time.time() - t0) / len(clauses),
               "%d masks (%s tier%s), every one with symbolic parameter values" % (len(masks), ctx.tier, ", COMPLETE product" if ctx.tier == "thorough" else ", loop-modular subset")
               if not fails else "fails for mask %s: %s (%d masks)" % (fails[0][0], fails[0][1], len(fails)),
               cex=None if not fails else dict(mask=dict(bias=fails[0][0][0], noise=fails[0][0][1], scale_misal=fails[0][0][2]), detail=fails[0][1], n_masks=len(fails)),
               native=None if not fails else _native_mask(py, fails[0][0], fails[0][2]))
    ctx.notes.append(dict(masks=len(masks), per_mask_obligations=n_ob))
    ctx.guard(_walk_without_bias, ctx, py)
    ctx.guard(_undo, ctx, py)
    ctx.guard(_variances, ctx, py)
    ctx.guard(_apply_imu, ctx, py)

    # frame of the modules under contract (no state kept between calls, arguments left alone): same analysis as C19
    from props import C19 as _C19
    ctx.guard(_C19.frame_obligations, ctx, py, "C14", {'inertial_sensor', 'util'})


def _native_mask(py, mask, values=None):
    """replay a failing mask with concrete numbers against the documented layout (`values`: the witness of a path, i.e.
    the simulated scale / misalignment magnitudes t<i><j> that take it)"""
    IS = py.inertial_sensor
    b, nz, sm = mask
    values = values or {}
    bias_sd = [0.1 * (a + 1) if b[a] else 0 for a in range(3)]
    walk = [0.01 * (a + 1) if b[a] == 2 else 0 for a in range(3)]
    noise = [0.2 * (a + 1) if nz[a] else 0 for a in range(3)]
    scale = [[0.001 * (3 * i + j + 1) if sm[3 * i + j] else 0 for j in range(3)] for i in range(3)]
    m = IS.EstimationModel(bias_sd, noise, walk, scale)
    e = expected_layout(mask)
    T = np.eye(3) + np.array([[values.get("t%d%d" % (i, j), scale[i][j]) if sm[3 * i + j] else 0.0 for j in range(3)] for i in range(3)])
    par = IS.Parameters(T, np.array([values.get("b%d" % a, 0.5) if b[a] else 0.0 for a in range(3)]), noise, walk, rng=0)
    rd = pd.DataFrame(np.ones((3, 3)), index=[0.0, 0.1, 0.3], columns=["gyro_x", "gyro_y", "gyro_z"])
    par.apply(rd, "rate")
    r = np.array([0.3, -0.2, 0.7])
    x = np.arange(1, m.n_states + 1) * 0.01
    sim_err = np.zeros(3)
    for a in range(3):
        if a in e["Hcols"]:
            sim_err[a] += x[e["Hcols"][a]]
    for (i, j, k) in e["smidx"]:
        sim_err[i] += x[k] * r[j]
    okH = m.n_states == len(e["states"]) and np.allclose(m.output_matrix(r) @ x if m.n_states else np.zeros(3), sim_err)
    bad = (m.states != e["states"] or list(par.data_frame.columns) != e["states"] or not okH
           or not np.allclose(np.diag(m.P), [float(v.subs({s: 0.1 * (int(s.name[2]) + 1) if s.name.startswith("sb") else 0.001 * (3 * int(s.name[2]) + int(s.name[3]) + 1) for s in v.free_symbols})) for v in e["P"]]))
    return dict(reproduced=bool(bad), states=m.states, simulator_columns=list(par.data_frame.columns), expected=e["states"])


def _walk_without_bias(ctx, py):
    IS = py.inertial_sensor
    bad = []
    n = 0
    for b in itertools.product((0, 1), repeat=3):
        for w in itertools.product((0, 1), repeat=3):
            n += 1
            should_raise = any(w[a] and not b[a] for a in range(3))
            try:
                IS.EstimationModel(bias_sd=[0.1 * x for x in b], bias_walk=[0.01 * x for x in w])
                raised = False
            except ValueError:
                raised = True
            if raised != should_raise:
                bad.append((b, w))
    ctx.ob("C14.layout.walk_requires_bias", "c", not bad, "exhaustive(64 masks)", 0.0,
           "ValueError exactly when a walk axis has no bias (all 64 bias x walk masks)", cex=None if not bad else dict(masks=bad[:3]),
           native=None if not bad else dict(reproduced=True))
    bad2 = []
    for shp in ((2,), (4,), (3, 1)):
        try:
            IS.EstimationModel(bias_sd=np.ones(shp))
            bad2.append(shp)
        except ValueError:
            pass
    ctx.ob("C14.layout.shape_guard", "c", not bad2, "native-call", 0.0, "wrong parameter shapes raise ValueError")


def _undo(ctx, py):
    """correct_increments with estimates == simulated (T, b) undoes the noise-free simulated error; irregular stamps."""
    IS = py.inertial_sensor
    t0 = time.time()
    # generic (non-zero) parameters; vanishing parameters are the mask enumeration above
    Ssym = sp.Matrix(3, 3, lambda i, j: sp.Symbol("s%d%d" % (i, j), real=True, nonzero=True))
    Tsym = sp.eye(3) + Ssym
    bsym = [sp.Symbol("b%d" % a, real=True, nonzero=True) for a in range(3)]
    n = 4
    dom = {s: (-0.1, 0.1) for s in Ssym}
    for stype in ("increment", "rate"):
        with rdomain(py, extra=[(IS, dict(check_random_state=lambda r: r))]) as proxy:
            T = np.array([[RSym(Tsym[i, j]) for j in range(3)] for i in range(3)], dtype=object)
            b = np.array([RSym(x) for x in bsym], dtype=object)
            par = IS.Parameters(T, b, None, None, rng=_Rng())
            rd = _readings(n)
            keep = rd.copy()
            y = par.apply(rd, stype)
            frame_ok = all(a_ is b_ for a_, b_ in zip(rd.values.reshape(-1), keep.values.reshape(-1)))
            m = IS.EstimationModel(bias_sd=1.0, scale_misal_sd=np.ones((3, 3)))
            # estimates == simulated parameters, accumulated in two updates with a correction in between
            half = np.array([b[0] / 2, b[1] / 2, b[2] / 2] + [(T[i, j] - (1 if i == j else 0)) / 2 for i in range(3) for j in range(3)], dtype=object)
            m.reset_estimates()
            m.update_estimates(half)
            ts = [x.e for x in rd.index]
            dts = pd.Series([RSym(ts[k] - ts[k - 1]) for k in range(1, n)], index=rd.index[1:], dtype=object)
            if stype == "increment":
                inc_y = y.iloc[1:]
                truth = rd.iloc[1:]
            else:
                # increments from rate readings: the part linear in the readings, (y_k + y_{k+1})/2 * dt
                inc_y = pd.DataFrame([[(y.iloc[k, a] + y.iloc[k + 1, a]) * RSym(sp.Rational(1, 2)) * dts.iloc[k] for a in range(3)] for k in range(n - 1)],
                                     index=rd.index[1:], columns=rd.columns, dtype=object)
                truth = pd.DataFrame([[(rd.iloc[k, a] + rd.iloc[k + 1, a]) * RSym(sp.Rational(1, 2)) * dts.iloc[k] for a in range(3)] for k in range(n - 1)],
                                     index=rd.index[1:], columns=rd.columns, dtype=object)
            m.correct_increments(dts, inc_y)                      # a correction between the two updates
            m.update_estimates(half)
            cor = m.correct_increments(dts, inc_y)
            cor_row = m.correct_increments(dts.iloc[1], inc_y.iloc[1])
            dets = [d for k_, d in proxy.side_conditions if k_ == "nonzero"]
        ctx.ob("C14.apply.frame.%s" % stype, "f", frame_ok, "object-identity", 0.0, "apply leaves the readings table untouched")
        dmn = dict(dom)
        res = [sp.sympify(unwrap(a_)) - sp.sympify(unwrap(b_)) for a_, b_ in zip(cor.values.reshape(-1), truth.values.reshape(-1))]
        worst = None
        for k, e_ in enumerate(res):
            v = field.check_zero(sp.together(e_), domain=dmn, seed=ctx.seed + k)
            if v.status != "proved":
                worst = (k, v)
                break
        ok = worst is None
        ctx.ob("C14.undo.%s" % stype, "a", True if ok else (False if worst[1].status == "refuted" else None), "field-nf", time.time() - t0,
               "correct_increments(dt_k = t_k - t_{k-1}, apply(x, '%s')) == x for symbolic T (det != 0), b, %d rows, irregular symbolic stamps; estimates accumulated in two updates with a correction in between%s"
               % (stype, n, "" if stype == "increment" else " (part linear in the readings)") if ok else "cell %d: %s %s" % (worst[0], worst[1].status, worst[1].detail),
               cex=None if ok else dict(cell=worst[0], point=worst[1].point), native=None if ok else _native_undo(py, stype))
        res_row = [sp.sympify(unwrap(a_)) - sp.sympify(unwrap(b_)) for a_, b_ in zip(cor_row.values, truth.iloc[1].values)]
        ok_row = all(field.check_zero(sp.together(e_), domain=dmn, seed=ctx.seed).status == "proved" for e_ in res_row)
        ctx.ob("C14.undo.%s.series_form" % stype, "a", ok_row and cor_row.name is truth.iloc[1].name and list(cor_row.index) == list(truth.columns), "field-nf", 0.0,
               "single-row (Series) form: same identity, name and index preserved")
        ctx.ob("C14.undo.%s.det_is_requires" % stype, "d", len(dets) >= 1, "stub-log", 0.0,
               "np.linalg.solve precondition det(transform) != 0 is the contract's `requires` (%d solves)" % len(dets))
        # the same, USED model after reset_estimates: whatever was estimated and corrected before, the correction is the
        # identity again (both filters reset the caller's models before use; nothing may survive a reset)
        t1 = time.time()
        with rdomain(py, extra=[(IS, dict(check_random_state=lambda r: r))]):
            m.reset_estimates()
            again = m.correct_increments(dts, inc_y)
            again_row = m.correct_increments(dts.iloc[1], inc_y.iloc[1])
            m.update_estimates(half)
            m.update_estimates(half)
            cor2 = m.correct_increments(dts, inc_y)
        res_id = [sp.sympify(unwrap(a_)) - sp.sympify(unwrap(b_)) for a_, b_ in zip(list(again.values.reshape(-1)) + list(again_row.values), list(inc_y.values.reshape(-1)) + list(inc_y.iloc[1].values))]
        res_2 = [sp.sympify(unwrap(a_)) - sp.sympify(unwrap(b_)) for a_, b_ in zip(cor2.values.reshape(-1), truth.values.reshape(-1))]
        bad_id = [k for k, e_ in enumerate(res_id) if field.check_zero(sp.together(e_), domain=dmn, seed=ctx.seed + k).status != "proved"]
        bad_2 = [k for k, e_ in enumerate(res_2) if field.check_zero(sp.together(e_), domain=dmn, seed=ctx.seed + k).status != "proved"]
        ok_r = not bad_id and not bad_2
        ctx.ob("C14.undo.%s.after_reset" % stype, "a", ok_r, "field-nf", time.time() - t1,
               "a model that has been updated and used: after reset_estimates the correction is the identity (table and row forms), and "
               "re-estimating the same parameters undoes the simulated error again" if ok_r else "identity cells failing: %s; re-estimated cells failing: %s" % (bad_id[:4], bad_2[:4]),
               cex=None if ok_r else dict(sensor_type=stype), native=None if ok_r else _native_reset(py, stype))


def _native_reset(py, stype):
    IS = py.inertial_sensor
    rng = np.random.RandomState(1)
    t = np.array([0.0, 0.1, 0.35, 0.4, 0.9])
    inc = pd.DataFrame(rng.randn(4, 3), index=t[1:], columns=["gyro_x", "gyro_y", "gyro_z"])
    dt = pd.Series(np.diff(t), index=t[1:])
    m = IS.EstimationModel(bias_sd=1.0, scale_misal_sd=np.ones((3, 3)))
    m.reset_estimates()
    m.update_estimates(np.concatenate([rng.randn(3) * 0.1, 0.05 * rng.randn(9)]))
    m.correct_increments(dt, inc)
    m.reset_estimates()
    out = m.correct_increments(dt, inc)
    err = float(np.max(np.abs(out.values - inc.values)))
    return dict(reproduced=bool(err > 1e-12), sequence="update_estimates(x); correct_increments; reset_estimates; correct_increments", deviation_from_identity=err)


def _native_undo(py, stype):
    IS = py.inertial_sensor
    rng = np.random.RandomState(0)
    t = np.array([0.0, 0.1, 0.35, 0.4, 0.9])
    x = pd.DataFrame(rng.randn(5, 3), index=t, columns=["gyro_x", "gyro_y", "gyro_z"])
    T = np.eye(3) + 0.05 * rng.randn(3, 3)
    b = rng.randn(3) * 0.1
    par = IS.Parameters(T, b, rng=0)
    y = par.apply(x, stype)
    m = IS.EstimationModel(bias_sd=1.0, scale_misal_sd=np.ones((3, 3)))
    m.reset_estimates()
    half = np.concatenate([b / 2, ((T - np.eye(3)) / 2).reshape(-1)])
    m.update_estimates(half)
    dt = pd.Series(np.diff(t), index=t[1:])
    if stype == "increment":
        inc_y, truth = y.iloc[1:], x.iloc[1:]
    else:
        inc_y = pd.DataFrame(0.5 * (y.values[1:] + y.values[:-1]) * np.diff(t)[:, None], index=t[1:], columns=x.columns)
        truth = pd.DataFrame(0.5 * (x.values[1:] + x.values[:-1]) * np.diff(t)[:, None], index=t[1:], columns=x.columns)
    m.correct_increments(dt, inc_y)
    m.update_estimates(half)
    cor = m.correct_increments(dt, inc_y)
    err = float(np.max(np.abs(cor.values - truth.values)))
    return dict(reproduced=err > 1e-12, max_residual=err, stamps=list(t))


def _variances(ctx, py):
    IS = py.inertial_sensor
    t0 = time.time()
    n = 4
    for stype in ("rate", "increment"):
        with rdomain(py, extra=[(IS, dict(check_random_state=lambda r: r))]):
            nz = [RSym(_sym("nz%d" % a)) for a in range(3)]
            wk = [RSym(_sym("w%d" % a)) for a in range(3)]
            b = [RSym(sp.Symbol("b%d" % a, real=True, nonzero=True)) for a in range(3)]
            par = IS.Parameters(None, np.array(b, dtype=object), np.array(nz, dtype=object), np.array(wk, dtype=object), rng=_Rng())
            ts = [sp.Integer(0)] + [sp.Symbol("h%d" % k, positive=True) for k in range(1, n)]
            tcum = [sum(ts[:k + 1]) for k in range(n)]
            rd = _readings(n)
            rd.index = pd.Index([RSym(t) for t in tcum], dtype=object)
            y = par.apply(rd, stype)
            bias_tab = par.data_frame
        ok = True
        detail = ""
        hs = [None] + ts[1:]
        for k in range(n):
            dtk = hs[k] if k > 0 else hs[1]           # the first sample takes the following interval by convention
            for a in range(3):
                e = sp.sympify(unwrap(y.iloc[k, a]))
                c_white = sp.diff(e, sp.Symbol("xi2_%d_%d" % (k, a), real=True))
                want = _sym("nz%d" % a) * (dtk ** sp.Rational(-1, 2) if stype == "rate" else dtk ** sp.Rational(1, 2))
                if sp.simplify(c_white - want) != 0:
                    ok, detail = False, "white-noise coefficient row %d axis %d: %s, expected %s" % (k, a, c_white, want)
                bk = sp.sympify(unwrap(bias_tab.iloc[k]["bias_%s" % XYZ[a]]))
                for j in range(n):
                    cw = sp.diff(bk, sp.Symbol("xi1_%d_%d" % (j, a), real=True))
                    wantw = _sym("w%d" % a) * sp.sqrt(hs[j]) if 0 < j <= k else 0
                    if sp.simplify(cw - wantw) != 0:
                        ok, detail = False, "bias-walk coefficient of draw %d in row %d: %s, expected %s" % (j, k, cw, wantw)
        ctx.ob("C14.variances.%s" % stype, "a", ok, "symbolic-execution(coefficients of draws)", time.time() - t0,
               "white noise coefficient noise*dt^(%s1/2) => variance noise^2%s; bias_k = b + walk*sum_{j<=k} xi_j sqrt(dt_j) => variance walk^2 (t_k - t_0); irregular symbolic intervals"
               % ("-" if stype == "rate" else "+", "/dt" if stype == "rate" else "*dt") if ok else detail,
               cex=None if ok else dict(detail=detail), native=None if ok else _native_variance(py, stype))


def _native_variance(py, stype):
    IS = py.inertial_sensor
    t = np.cumsum(np.tile([0.05, 0.2], 3000))
    x = pd.DataFrame(np.zeros((len(t), 3)), index=t, columns=["gyro_x", "gyro_y", "gyro_z"])
    par = IS.Parameters(noise=0.3, rng=1)
    y = par.apply(x, stype).values
    dt = np.concatenate([[t[1] - t[0]], np.diff(t)])
    z = y / (0.3 * (dt[:, None] ** (-0.5 if stype == "rate" else 0.5)))
    by = [float(np.var(z[np.isclose(dt, d)])) for d in (0.05, 0.2)]
    return dict(reproduced=any(abs(v - 1) > 0.1 for v in by), normalised_variance_by_interval=by)


def _apply_imu(ctx, py):
    """apply_imu_parameters = the two Parameters.apply results side by side, default parameters are the identity."""
    IS = py.inertial_sensor
    with rdomain(py, extra=[(IS, dict(check_random_state=lambda r: r if isinstance(r, _Rng) else _Rng()))]):
        n = 3
        from pvx.sym import increasing_stamps
        ts = [RSym(x) for x in increasing_stamps(n)]
        cols = ["gyro_x", "gyro_y", "gyro_z", "accel_x", "accel_y", "accel_z"]
        imu = pd.DataFrame([[RSym(sp.Symbol("%s_%d" % (c, k), real=True)) for c in cols] for k in range(n)], index=pd.Index(ts, dtype=object), columns=cols, dtype=object)
        out = IS.apply_imu_parameters(imu, "increment")
        ok = list(out.columns) == cols and all(x is y for x, y in zip(out.index, ts)) and all(
            sp.expand(sp.sympify(unwrap(a)) - sp.sympify(unwrap(b))) == 0 for a, b in zip(out.values.reshape(-1), imu.values.reshape(-1)))
    ctx.ob("C14.apply_imu_parameters.default_is_identity", "a", ok, "symbolic-execution", 0.0, "default Parameters leave the IMU table unchanged; columns and index preserved")


def replay(obligation, cex):
    py = load()
    if obligation.startswith("C14.undo"):
        return _native_undo(py, "rate" if "rate" in obligation else "increment")
    if obligation.startswith("C14.variances"):
        return _native_variance(py, "rate" if "rate" in obligation else "increment")
    if cex and "mask" in cex:
        m = cex["mask"]
        return _native_mask(py, (tuple(m["bias"]), tuple(m["noise"]), tuple(m["scale_misal"])))
    return dict(reproduced=False)
